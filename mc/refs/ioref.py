"""Reference semantics for the io round-trip properties (C15, C16).  Imports nothing from petl.

Written from the documentation:
* csv/tsv: "all data values are strings" on read; every cell is written as str() renders it, None as the
  empty string (csv module documentation); the header is just the first row.
* pickle: "preserves type information, i.e., reading and writing is round-trippable".
* json: rows are written as JSON objects keyed by the (text) field names - short rows are padded with
  None, surplus cells have no field and are not written; JSON types come back (tuple -> list).
* tojsonarrays: rows are written as JSON arrays, as they are.
* append*: "the data rows from the table are simply appended to the file".
"""
import bz2
import csv
import gzip
import io
import json


# ---------------------------------------------------------------------------------------------
# type-strict deep equality (1, 1.0 and True are three different cells)
# ---------------------------------------------------------------------------------------------

def same(a, b):
    if type(a) is not type(b):
        return False
    if isinstance(a, (list, tuple)):
        return len(a) == len(b) and all(same(x, y) for x, y in zip(a, b))
    if isinstance(a, dict):
        if len(a) != len(b):
            return False
        for k, v in a.items():
            if k not in b or not same(v, b[k]):
                return False
            if not any(type(k2) is type(k) and k2 == k for k2 in b):
                return False
        return True
    if isinstance(a, float):
        return repr(a) == repr(b)
    return a == b


def rows_same(got, exp):
    """Row containers are normalised (list / tuple / Record all count as the row), cells are strict."""
    if len(got) != len(exp):
        return False
    for g, e in zip(got, exp):
        if not isinstance(g, (list, tuple)):
            return False
        if len(g) != len(e):
            return False
        for x, y in zip(g, e):
            if not same(x, y):
                return False
    return True


def norm_rows(rows):
    return [tuple(r) for r in rows]


def norm_rows_safe(rows):
    """For reporting observed rows that may not even be sequences."""
    return [tuple(r) if isinstance(r, (list, tuple)) else r for r in rows]


# ---------------------------------------------------------------------------------------------
# csv
# ---------------------------------------------------------------------------------------------

def csv_text(v):
    return '' if v is None else str(v)


def csv_rows(rows):
    """What reading back must return for these written rows."""
    return [tuple(csv_text(c) for c in r) for r in rows]


def written_rows(table, write_header):
    """The rows a to*/append* call with this write_header flag puts into the file."""
    return list(table) if write_header else list(table[1:])


def concat_rows(first, first_wh, appended):
    """Rows of the concatenation: to*(first, write_header=first_wh) then append*(t, write_header=wh)..."""
    out = written_rows(first, first_wh)
    for t, wh in appended:
        out.extend(written_rows(t, wh))
    return out


def stdlib_writer_refuses(rows, csvargs):
    """True when csv.writer itself raises csv.Error for these rows (e.g. QUOTE_NONE without an
    escapechar and a cell that needs quoting; a single empty field that must be quoted)."""
    buf = io.StringIO(newline='')
    try:
        w = csv.writer(buf, **csvargs)
        for r in rows:
            w.writerow(r)
    except csv.Error:
        return True
    return False


def is_numeric_cell(v):
    return isinstance(v, (bool, int, float, complex))


def has_numeric(rows):
    return any(is_numeric_cell(c) for r in rows for c in r)


def encodable(rows, encoding):
    if encoding is None:
        encoding = 'ascii'   # the locale's default codec is only trusted with ASCII
    try:
        for r in rows:
            for c in r:
                csv_text(c).encode(encoding)
    except UnicodeError:
        return False
    return True


def csv_special(rows, delimiter=',', quotechar='"'):
    """Non-trivial for a csv round trip: something a naive join/split would get wrong."""
    if not rows:
        return False
    w = len(rows[0])
    for r in rows:
        if len(r) != w:
            return True
        for c in r:
            if not isinstance(c, str):
                return True
            if c == '':
                return True
            for ch in c:
                if ch in (delimiter, quotechar, '\r', '\n', '\0') or ord(ch) > 127:
                    return True
    return False


# ---------------------------------------------------------------------------------------------
# json
# ---------------------------------------------------------------------------------------------

def json_norm(v):
    """The value a JSON round trip of v yields (domain: None, bool, int, float, str, list/tuple, dict
    with str keys)."""
    if v is None or isinstance(v, (bool, int, float, str)):
        return v
    if isinstance(v, (list, tuple)):
        return [json_norm(x) for x in v]
    if isinstance(v, dict):
        return {k: json_norm(x) for k, x in v.items()}
    raise TypeError('outside the JSON domain: %r' % (v,))


def json_records(table):
    """The squared-up records tojson writes: every record carries every field."""
    flds = [str(f) for f in table[0]]
    recs = []
    for r in table[1:]:
        recs.append({f: (json_norm(r[i]) if i < len(r) else None) for i, f in enumerate(flds)})
    return flds, recs


def json_table(table, header=None, missing=None):
    """What fromjson must return: header (discovered = the field names in order, or as given) and one
    row per record with `missing` for fields a record does not have."""
    flds, recs = json_records(table)
    hdr = list(flds) if header is None else list(header)
    out = [tuple(hdr)]
    for rec in recs:
        out.append(tuple(rec[f] if f in rec else missing for f in hdr))
    return out


def json_arrays(table, output_header):
    rows = list(table) if output_header else list(table[1:])
    return [json_norm(r) for r in rows]


def parse_json(data):
    return json.loads(data.decode('utf-8'))


# ---------------------------------------------------------------------------------------------
# raw content of a target, decompressed with the standard library
# ---------------------------------------------------------------------------------------------

def decompress(kind, data):
    if kind == 'gz':
        return gzip.decompress(data)
    if kind == 'bz2':
        return bz2.decompress(data)
    return data
