"""Reference semantics for C10 (duplicates / unique / distinct / conflicts / isunique).

Written from the documentation and the property statement; imports nothing from petl.  Keys are compared
with ==, key multiplicities are counted by a linear scan (no hashing, no sorting).
"""
from .. import refmodel as ref


def tf(row):
    """Type-faithful, container-agnostic rendering of a row."""
    return tuple((c.__class__.__name__, c) for c in row)


def bag(rows):
    """Multiset of rows as a sorted list of type-faithful renderings."""
    return sorted((repr(tf(r)) for r in rows))


def keyfn(hdr, key):
    """key None: the whole row; otherwise the cell (one field) or the tuple of cells (several fields)."""
    if key is None:
        return lambda r: tuple(r)
    idx = ref.resolve(hdr, key)
    return lambda r: ref.keyof(r, idx)


def groups(rows, kf):
    """[(key, [rows in input order])] in order of first appearance; key equality is ==."""
    out = []
    for r in rows:
        k = kf(r)
        for g in out:
            if g[0] == k:
                g[1].append(r)
                break
        else:
            out.append((k, [r]))
    return out


def duplicates(rows, kf):
    gs = groups(rows, kf)
    return [r for k, g in gs if len(g) > 1 for r in g]


def unique(rows, kf):
    gs = groups(rows, kf)
    return [r for k, g in gs if len(g) == 1 for r in g]


def distinct(rows, kf):
    """One row per distinct key: the first of its group in (stable) sorted order = the first in input order."""
    return [g[0] for k, g in groups(rows, kf)]


def distinct_counted(rows, kf):
    return [tuple(g[0]) + (len(g),) for k, g in groups(rows, kf)]


def considered(hdr, include=None, exclude=None):
    """Indices of the fields looked at by conflicts()."""
    def aslist(x):
        if x is None:
            return None
        return list(x) if isinstance(x, (list, tuple)) else [x]
    inc, exc = aslist(include), aslist(exclude)
    idx = list(range(len(hdr)))
    if exc:
        return [i for i in idx if hdr[i] not in exc]
    if inc:
        return [i for i in idx if hdr[i] in inc]
    return idx


def group_disagrees(grp, fields, missing):
    """Some considered field has two different non-missing values inside the group."""
    for i in fields:
        vals = [r[i] for r in grp if i < len(r) and not (r[i] == missing)]
        for a in vals:
            for b in vals:
                if a != b:
                    return True
    return False


def conflicts_unsound(hdr, rows, key, out, missing=None, include=None, exclude=None):
    """Soundness of conflicts(): returns a reason string when `out` contains a row it must not contain."""
    kf = keyfn(hdr, key)
    gs = groups(rows, kf)
    fields = considered(hdr, include, exclude)
    inbag = [repr(tf(r)) for r in rows]
    for r in out:
        t = repr(tf(r))
        if t not in inbag:
            return 'returned more copies of a row than the input holds' if any(
                tuple(x) == tuple(r) for x in rows) else 'returned a row that is not an input row'
        inbag.remove(t)
        k = kf(r)
        grp = [g for kk, g in gs if kk == k][0]
        if len(grp) < 2:
            return 'returned a row whose key occurs once'
        if not group_disagrees(grp, fields, missing):
            return 'returned a row of a group without disagreement on a considered non-missing value'
    return None


def conflicts_possible(hdr, rows, key, missing=None, include=None, exclude=None):
    """Number of rows that conflicts() MAY return (rows of disagreeing duplicate groups) — for counting only."""
    kf = keyfn(hdr, key)
    fields = considered(hdr, include, exclude)
    return sum(len(g) for k, g in groups(rows, kf) if len(g) > 1 and group_disagrees(g, fields, missing))
