"""C12 reference semantics of petl's row- and field-level transforms (DESIGN.md Appendix A).

Written from the documentation (docstrings of petl.transform.basics / headers / conversions / fills /
maps / regex and petl.util.base / materialise); imports NOTHING from petl.  Every reference function has
the signature ``ref(tables, args, kwargs)`` mirroring the petl call ``fn(*tables, *args, **kwargs)`` and
returns the expected output in the normal form used by the check:

* table functions: a tuple of row tuples, header first;
* accessors: see the individual functions.

Exceptions:
    FieldSelection  - the documentation says a FieldSelectionError (some exception) must be raised
    Undefined       - the documentation gives no answer for this input (the check must not generate it;
                      it is counted and skipped, never compared)

Callables are referenced BY NAME in replayable cases: a string starting with '@' (``'@echo'``,
``'@get:foo'``) stands for the callable ``make_callable`` builds; ``materialise`` replaces them.
"""
import itertools
import re


class FieldSelection(Exception):
    """The documented outcome is a FieldSelectionError."""


class Undefined(Exception):
    """Outside the documented domain."""


# ---------------------------------------------------------------------------------------------
# records as documented for petl.util.base.records: "a hybrid object supporting all possible ways of
# accessing values"; "Short rows are padded with the value of the missing keyword argument".
# ---------------------------------------------------------------------------------------------

class RefRecord(tuple):

    def __new__(cls, row, flds, missing=None):
        return super(RefRecord, cls).__new__(cls, row)

    def __init__(self, row, flds, missing=None):
        self._flds = [str(f) for f in flds]
        self._missing = missing

    def _at(self, i):
        if -len(self) <= i < len(self):
            return tuple.__getitem__(self, i)
        return self._missing

    def __getitem__(self, f):
        if isinstance(f, int):
            return self._at(f)
        if f in self._flds:
            return self._at(self._flds.index(f))
        raise KeyError(f)

    def __getattr__(self, f):
        if f.startswith('_'):
            raise AttributeError(f)
        if f in self._flds:
            return self._at(self._flds.index(f))
        raise AttributeError(f)


# ---------------------------------------------------------------------------------------------
# named callables
# ---------------------------------------------------------------------------------------------

def _t(x):
    return None if x is None else tuple(x)


def make_callable(spec):
    """'@name' or '@name:arg1:arg2' -> callable.  The callables only use the documented access paths of the
    row object handed to them (iteration, index, field name, attribute) and return plain values."""
    parts = spec[1:].split(':')
    nm, a = parts[0], parts[1:]
    # ---- value -> value converters
    if nm == 'up':
        return lambda v: v.upper()
    if nm == 'tag':
        return lambda v: ('T', v)
    if nm == 'len':
        return lambda v: len(v)
    # ---- (value, row) converters (pass_row=True)
    if nm == 'vrow':
        return lambda v, row: ('VR', v) + tuple(row)
    if nm == 'vget':
        return lambda v, row: ('VG', v, row[a[0]])
    if nm == 'vidx':
        return lambda v, row: ('VI', v, row[int(a[0])])
    # ---- record -> value
    if nm == 'echo':
        return lambda rec: ('E',) + tuple(rec)
    if nm == 'get':
        return lambda rec: ('G', rec[a[0]])
    if nm == 'attr':
        return lambda rec: ('A', getattr(rec, a[0]))
    if nm == 'idx':
        return lambda rec: ('I', rec[int(a[0])])
    # ---- record -> bool
    if nm == 'true':
        return lambda rec: True
    if nm == 'false':
        return lambda rec: False
    if nm == 'idxeq':
        return lambda rec: rec[int(a[0])] == a[1]
    if nm == 'idxne':
        return lambda rec: rec[int(a[0])] != a[1]
    if nm == 'nameeq':
        return lambda rec: rec[a[0]] == a[1]
    if nm == 'attreq':
        return lambda rec: getattr(rec, a[0]) == a[1]
    # ---- (prv, cur, nxt) -> value
    if nm == 'ctx':
        return lambda prv, cur, nxt: ('Q', _t(prv), _t(cur), _t(nxt))
    if nm == 'ctxget':
        return lambda prv, cur, nxt: ('QG', None if prv is None else prv[a[0]], cur[a[0]],
                                      None if nxt is None else nxt[a[0]])
    if nm == 'ctxprev':   # reads the ADDED field of the previous output row
        return lambda prv, cur, nxt: ('QP', None if prv is None else prv[a[0]], cur[0])
    # ---- record -> row
    if nm == 'rev':
        return lambda rec: tuple(reversed(tuple(rec)))
    if nm == 'revlist':
        return lambda rec: list(reversed(tuple(rec)))
    if nm == 'pick':
        return lambda rec: tuple(rec[x] for x in a)
    if nm == 'pickattr':
        return lambda rec: [getattr(rec, x) for x in a]
    if nm == 'dup':
        return lambda rec: tuple(rec) + tuple(rec)
    raise KeyError(spec)


def is_callable_name(x):
    return isinstance(x, str) and x.startswith('@')


def materialise(x):
    """Replace every '@name' string inside args/kwargs by its callable (recursively)."""
    if is_callable_name(x):
        return make_callable(x)
    if isinstance(x, tuple):
        return tuple(materialise(y) for y in x)
    if isinstance(x, list):
        return [materialise(y) for y in x]
    if isinstance(x, dict):
        return type(x)((k, materialise(v)) for k, v in x.items())
    return x


# ---------------------------------------------------------------------------------------------
# helpers
# ---------------------------------------------------------------------------------------------

def resolve(hdr, spec):
    """Documented field selection: an int smaller than the header length is an index (indices take priority
    over names); anything else is matched against str() of the header values from left to right, each header
    position being consumed at most once; no match -> FieldSelectionError."""
    flds = [str(h) for h in hdr]
    if not isinstance(spec, (list, tuple)):
        spec = (spec,)
    out = []
    for s in spec:
        if isinstance(s, int) and not isinstance(s, bool):
            if s < 0:
                raise Undefined('negative selection index')
            if s < len(hdr):
                out.append(s)
                continue
        if s in flds:
            i = flds.index(s)
            out.append(i)
            flds[i] = None
        else:
            raise FieldSelection(s)
    return out


def pad(row, w, missing=None):
    """pad/trim: cells beyond the row's end read as `missing`, cells beyond the header's length are dropped."""
    return tuple(row[i] if i < len(row) else missing for i in range(w))


def _split(t):
    return tuple(t[0]), [tuple(r) for r in t[1:]]


def _table(hdr, rows):
    return (tuple(hdr),) + tuple(tuple(r) for r in rows)


def _distinct(hdr):
    if len(set(map(str, hdr))) != len(hdr):
        raise Undefined('duplicate field names')


def _rect(hdr, rows):
    if any(len(r) != len(hdr) for r in rows):
        raise Undefined('ragged rows')


# ---------------------------------------------------------------------------------------------
# basics
# ---------------------------------------------------------------------------------------------

def cut(tables, args, kw):
    hdr, rows = _split(tables[0])
    sel = args
    if len(args) == 1 and isinstance(args[0], (list, tuple)):
        sel = args[0]      # "support passing a single list or tuple of fields"
    missing = kw.get('missing')
    idx = resolve(hdr, tuple(sel))
    return _table([hdr[i] for i in idx],
                  [[row[i] if i < len(row) else missing for i in idx] for row in rows])


def cutout(tables, args, kw):
    hdr, rows = _split(tables[0])
    missing = kw.get('missing')
    out = set(resolve(hdr, tuple(args)))
    idx = [i for i in range(len(hdr)) if i not in out]
    return _table([hdr[i] for i in idx],
                  [[row[i] if i < len(row) else missing for i in idx] for row in rows])


def movefield(tables, args, kw):
    hdr, rows = _split(tables[0])
    f, index = args
    _distinct(hdr)
    _rect(hdr, rows)
    if f not in hdr:
        raise Undefined('unknown field')
    h = [x for x in hdr if x != f]
    h.insert(index, f)
    src = [hdr.index(x) for x in h]
    return _table(h, [[row[i] for i in src] for row in rows])


def cat(tables, args, kw):
    missing = kw.get('missing')
    header = kw.get('header')
    parts = [_split(t) for t in tables]
    for hdr, _ in parts:
        _distinct(hdr)
    if header is None:
        outhdr = []
        for hdr, _ in parts:
            for h in hdr:
                if h not in outhdr:
                    outhdr.append(h)
    else:
        outhdr = list(header)
    out = []
    for hdr, rows in parts:
        for row in rows:
            r = []
            for h in outhdr:
                v = missing
                if h in hdr:
                    i = hdr.index(h)
                    if i < len(row):
                        v = row[i]
                r.append(v)
            out.append(r)
    return _table(outhdr, out)


def stack(tables, args, kw):
    missing = kw.get('missing')
    hdr0 = tuple(tables[0][0])
    out = []
    for t in tables:
        for row in t[1:]:
            out.append(pad(row, len(hdr0), missing))
    return _table(hdr0, out)


def annex(tables, args, kw):
    missing = kw.get('missing')
    parts = [_split(t) for t in tables]
    outhdr = []
    for hdr, _ in parts:
        outhdr.extend(hdr)
    n = max(len(rows) for _, rows in parts)
    out = []
    for i in range(n):
        r = []
        for hdr, rows in parts:
            if i < len(rows):
                r.extend(pad(rows[i], len(hdr), missing))
            else:
                r.extend([missing] * len(hdr))
        out.append(r)
    return _table(outhdr, out)


def _insert(seq, index, x):
    seq = list(seq)
    if index is None:
        seq.append(x)
    else:
        seq.insert(index, x)      # Appendix A: "list.insert(index, ...) semantics"
    return seq


def addfield(tables, args, kw):
    hdr, rows = _split(tables[0])
    a = list(args)
    field = a[0]
    value = a[1] if len(a) > 1 else kw.get('value')
    index = a[2] if len(a) > 2 else kw.get('index')
    missing = a[3] if len(a) > 3 else kw.get('missing')
    out = []
    for row in rows:
        sq = pad(row, len(hdr), missing)
        v = value(RefRecord(sq, hdr)) if callable(value) else value
        out.append(_insert(sq, index, v))
    return _table(_insert(hdr, index, field), out)


def addfields(tables, args, kw):
    hdr, rows = _split(tables[0])
    defs = args[0]
    missing = args[1] if len(args) > 1 else kw.get('missing')
    outhdr = list(hdr)
    plan = []
    for d in defs:
        if len(d) == 2:
            name, value = d
            index = len(outhdr)       # appended to the header grown so far
        else:
            name, value, index = d
        outhdr.insert(index, name)
        plan.append((value, index))
    out = []
    for row in rows:
        sq = pad(row, len(hdr), missing)
        rec = RefRecord(sq, hdr)      # callables see the original (squared-up) row
        r = list(sq)
        for value, index in plan:
            r.insert(index, value(rec) if callable(value) else value)
        out.append(r)
    return _table(outhdr, out)


def addcolumn(tables, args, kw):
    hdr, rows = _split(tables[0])
    a = list(args)
    field, col = a[0], list(a[1])
    index = a[2] if len(a) > 2 else kw.get('index')
    missing = a[3] if len(a) > 3 else kw.get('missing')
    _rect(hdr, rows)
    out = []
    for i in range(max(len(rows), len(col))):
        row = rows[i] if i < len(rows) else (missing,) * len(hdr)
        v = col[i] if i < len(col) else missing
        out.append(_insert(row, index, v))
    return _table(_insert(hdr, index, field), out)


def addrownumbers(tables, args, kw):
    hdr, rows = _split(tables[0])
    a = list(args)
    start = a[0] if len(a) > 0 else kw.get('start', 1)
    step = a[1] if len(a) > 1 else kw.get('step', 1)
    field = a[2] if len(a) > 2 else kw.get('field', 'row')
    return _table((field,) + hdr, [(start + i * step,) + row for i, row in enumerate(rows)])


def addfieldusingcontext(tables, args, kw):
    hdr, rows = _split(tables[0])
    field, query = args
    _rect(hdr, rows)
    outhdr = hdr + (field,)
    out = []
    prv = None
    for i, row in enumerate(rows):
        cur = RefRecord(row, outhdr)
        nxt = RefRecord(rows[i + 1], outhdr) if i + 1 < len(rows) else None
        v = query(prv, cur, nxt)
        o = row + (v,)
        out.append(o)
        prv = RefRecord(o, outhdr)
    return _table(outhdr, out)


# ---------------------------------------------------------------------------------------------
# headers
# ---------------------------------------------------------------------------------------------

def rename(tables, args, kw):
    hdr, rows = _split(tables[0])
    _distinct(hdr)
    strict = kw.get('strict', True)
    if len(args) == 0:
        spec = {}
    elif len(args) == 1:
        spec = dict(args[0])
    else:
        spec = {args[0]: args[1]}
    flds = [str(h) for h in hdr]
    outhdr = list(hdr)
    seen = set()
    for k, new in spec.items():
        if isinstance(k, int) and not isinstance(k, bool):
            if k < 0:
                raise Undefined('negative index')
            pos = k if k < len(hdr) else None
        else:
            pos = flds.index(k) if k in flds else None
        if pos is None:
            if strict:
                raise FieldSelection(k)
            continue
        if pos in seen:
            raise Undefined('two keys name the same field')
        seen.add(pos)
        outhdr[pos] = new
    return _table(outhdr, rows)


def rename_setitem(tables, args, kw):
    """view = rename(t[, {initial}]); view[key] = new ...: the assignments extend the ONE spec of the view, which is
    applied to the input header as a whole."""
    spec = {}
    if len(args) > 1 and args[1]:
        spec.update(dict(args[1]))
    for k, v in args[0]:
        spec[k] = v
    return rename(tables, (spec,), kw)


def setheader(tables, args, kw):
    hdr, rows = _split(tables[0])
    return _table(args[0], rows)


def extendheader(tables, args, kw):
    hdr, rows = _split(tables[0])
    return _table(hdr + tuple(args[0]), rows)


def pushheader(tables, args, kw):
    t = tables[0]
    if isinstance(args[0], (list, tuple)):
        header = args[0]
    elif len(args) > 1:
        header = args              # "The header row can either be a list or positional arguments"
    else:
        raise Undefined('single non-list header')
    return (tuple(header),) + tuple(tuple(r) for r in t)


def skip(tables, args, kw):
    t = tables[0]
    return tuple(tuple(r) for r in itertools.islice(t, args[0], None))


def prefixheader(tables, args, kw):
    hdr, rows = _split(tables[0])
    return _table([str(args[0]) + str(f) for f in hdr], rows)


def suffixheader(tables, args, kw):
    hdr, rows = _split(tables[0])
    return _table([str(f) + str(args[0]) for f in hdr], rows)


def sortheader(tables, args, kw):
    hdr, rows = _split(tables[0])
    _distinct(hdr)
    missing = kw.get('missing')
    if kw.get('reverse'):
        raise Undefined('reverse is not documented')
    if any(len(r) > len(hdr) for r in rows):
        raise Undefined('long rows')
    order = sorted(range(len(hdr)), key=lambda i: hdr[i])
    return _table([hdr[i] for i in order],
                  [[row[i] if i < len(row) else missing for i in order] for row in rows])


# ---------------------------------------------------------------------------------------------
# conversions
# ---------------------------------------------------------------------------------------------

def _converter(c):
    """callable / method name / (method, args...) / dict / None."""
    if c is None:
        return None
    if callable(c):
        return c
    if isinstance(c, str):
        return lambda v, *rest: getattr(v, c)()
    if isinstance(c, (tuple, list)) and c and isinstance(c[0], str):
        nm, margs = c[0], tuple(c[1:])
        return lambda v, *rest: getattr(v, nm)(*margs)
    if isinstance(c, dict):
        def conv(v, *rest):
            try:
                return c[v] if v in c else v
            except TypeError:
                return v
        return conv
    raise Undefined('converter %r' % (c,))


def _field_pos(hdr, k):
    """convert: "either field names or indexes can be given"."""
    if isinstance(k, int) and not isinstance(k, bool):
        if k < 0 or k >= len(hdr):
            raise Undefined('index out of range')
        return k
    flds = [str(h) for h in hdr]
    if k not in flds:
        raise FieldSelection(k)
    if flds.count(k) > 1:
        raise Undefined('duplicate field name selected')
    return flds.index(k)


def _where(w):
    if w is None:
        return None
    if isinstance(w, str):
        # documented: expression string, "{foo}" is a lookup of field foo on the row
        src = re.sub(r'\{([^}]+)\}', lambda m: "rec[%r]" % m.group(1), w)
        return eval('lambda rec: ' + src)
    return w


def _convert_core(hdr, rows, convs, where=None, pass_row=False):
    """convs: {position: converter}.  Existing cells of the selected fields are converted, every other cell
    is carried over; rows are neither padded nor trimmed; `where` false -> row unchanged."""
    where = _where(where)
    out = []
    for row in rows:
        rec = RefRecord(row, hdr)
        if where is not None and not where(rec):
            out.append(row)
            continue
        r = []
        for i, v in enumerate(row):
            f = convs.get(i)
            if f is None:
                r.append(v)
            elif pass_row:
                r.append(f(v, rec))
            else:
                r.append(f(v))
        out.append(r)
    return _table(hdr, out)


def _convs_from_args(hdr, args):
    if len(args) == 0:
        return {}
    if len(args) == 1:
        spec = args[0]
        if isinstance(spec, dict):
            items = list(spec.items())
        elif isinstance(spec, (list, tuple)):
            if len(spec) > len(hdr):
                raise Undefined('more converters than fields')
            items = list(enumerate(spec))
        else:
            raise Undefined('converters %r' % (spec,))
    else:
        field = args[0]
        conv = args[1] if len(args) == 2 else tuple(args[1:])
        if isinstance(field, (list, tuple)):
            items = [(f, conv) for f in field]
        else:
            items = [(field, conv)]
    convs = {}
    for k, c in items:
        pos = _field_pos(hdr, k)
        if pos in convs:
            raise Undefined('field selected twice')
        convs[pos] = _converter(c)
    return convs


def convert(tables, args, kw):
    hdr, rows = _split(tables[0])
    convs = _convs_from_args(hdr, args)
    return _convert_core(hdr, rows, convs, kw.get('where'), kw.get('pass_row', False))


def convert_setitem(tables, args, kw):
    """tbl = convert(t); tbl[field] = converter   ("can be set afterwards via suffix notation")."""
    hdr, rows = _split(tables[0])
    convs = {}
    for k, c in args[0]:
        convs[_field_pos(hdr, k)] = _converter(c)
    return _convert_core(hdr, rows, convs, kw.get('where'), kw.get('pass_row', False))


def _all(hdr, rows, conv, kw):
    # "convert ALL fields": every header position, whatever the fields are called (duplicates included)
    if any(len(r) > len(hdr) for r in rows):
        raise Undefined('long rows')
    return _convert_core(hdr, rows, {i: conv for i in range(len(hdr))}, kw.get('where'),
                         kw.get('pass_row', False))


def convertall(tables, args, kw):
    hdr, rows = _split(tables[0])
    conv = args[0] if len(args) == 1 else tuple(args)
    return _all(hdr, rows, _converter(conv), kw)


def replace(tables, args, kw):
    hdr, rows = _split(tables[0])
    field, a, b = args
    return _convert_core(hdr, rows, {_field_pos(hdr, field): _converter({a: b})}, kw.get('where'))


def replaceall(tables, args, kw):
    hdr, rows = _split(tables[0])
    a, b = args
    return _all(hdr, rows, _converter({a: b}), kw)


def update(tables, args, kw):
    hdr, rows = _split(tables[0])
    field, value = args
    return _convert_core(hdr, rows, {_field_pos(hdr, field): (lambda v: value)}, kw.get('where'))


def _num(v):
    """numparser: int, (long,) float, complex in that order; if all fail, the value as-is."""
    for typ in (int, float, complex):
        try:
            return typ(v)
        except (ValueError, TypeError):
            pass
    return v


def convertnumbers(tables, args, kw):
    hdr, rows = _split(tables[0])
    if args or kw.get('strict'):
        raise Undefined('strict')
    return _all(hdr, rows, _num, kw)


def format(tables, args, kw):
    hdr, rows = _split(tables[0])
    field, fmt = args
    return _convert_core(hdr, rows, {_field_pos(hdr, field): (lambda v: fmt.format(v))}, kw.get('where'))


def formatall(tables, args, kw):
    hdr, rows = _split(tables[0])
    fmt = args[0]
    return _all(hdr, rows, lambda v: fmt.format(v), kw)


def interpolate(tables, args, kw):
    hdr, rows = _split(tables[0])
    field, fmt = args
    return _convert_core(hdr, rows, {_field_pos(hdr, field): (lambda v: fmt % v)}, kw.get('where'))


def interpolateall(tables, args, kw):
    hdr, rows = _split(tables[0])
    fmt = args[0]
    return _all(hdr, rows, lambda v: fmt % v, kw)


def sub(tables, args, kw):
    hdr, rows = _split(tables[0])
    a = list(args)
    field, pattern, repl = a[0], a[1], a[2]
    count = a[3] if len(a) > 3 else kw.get('count', 0)
    flags = a[4] if len(a) > 4 else kw.get('flags', 0)
    prog = re.compile(pattern, flags)
    return _convert_core(hdr, rows, {_field_pos(hdr, field): (lambda v: prog.sub(repl, v, count=count))})


# ---------------------------------------------------------------------------------------------
# fills
# ---------------------------------------------------------------------------------------------

def filldown(tables, args, kw):
    hdr, rows = _split(tables[0])
    missing = kw.get('missing')
    _rect(hdr, rows)
    if not rows:
        raise Undefined('zero data rows (C20)')
    cols = resolve(hdr, tuple(args)) if args else list(range(len(hdr)))
    out = []
    last = {}
    for n, row in enumerate(rows):
        r = list(row)
        for j in set(cols):
            if n > 0 and row[j] == missing:
                r[j] = last[j]          # the value of the row above (already filled)
            last[j] = r[j]
        out.append(r)
    return _table(hdr, out)


def fillright(tables, args, kw):
    hdr, rows = _split(tables[0])
    missing = args[0] if args else kw.get('missing')
    out = []
    for row in rows:
        r = list(row)
        for i in range(1, len(r)):
            if r[i] == missing:
                r[i] = r[i - 1]          # preceding value (already filled: propagates); may itself be missing
        out.append(r)
    return _table(hdr, out)


def fillleft(tables, args, kw):
    hdr, rows = _split(tables[0])
    missing = args[0] if args else kw.get('missing')
    out = []
    for row in rows:
        r = list(row)
        for i in range(len(r) - 2, -1, -1):
            if r[i] == missing:
                r[i] = r[i + 1]
        out.append(r)
    return _table(hdr, out)


# ---------------------------------------------------------------------------------------------
# maps
# ---------------------------------------------------------------------------------------------

def fieldmap(tables, args, kw):
    hdr, rows = _split(tables[0])
    _distinct(hdr)
    _rect(hdr, rows)
    mappings = args[0] if args else kw.get('mappings')
    if isinstance(mappings, (list, tuple)):
        mappings = list(mappings)         # replayable form of an OrderedDict: list of (key, value)
    else:
        mappings = list(mappings.items())
    flds = [str(h) for h in hdr]
    funs = []
    for outfld, m in mappings:
        if isinstance(m, str) and not callable(m) and m in flds:
            funs.append(lambda rec, m=m: rec[m])                      # field copy
        elif isinstance(m, int) and not isinstance(m, bool) and 0 <= m < len(hdr):
            funs.append(lambda rec, m=m: rec[m])                      # index copy
        elif isinstance(m, str):
            src = re.sub(r'\{([^}]+)\}', lambda g: "rec[%r]" % g.group(1), m)
            funs.append(eval('lambda rec: ' + src))                    # expression string
        elif callable(m):
            funs.append(m)                                            # callable(record)
        elif isinstance(m, (tuple, list)) and len(m) == 2:
            srcfld, fm = m
            if srcfld not in flds and not (isinstance(srcfld, int) and 0 <= srcfld < len(hdr)):
                raise Undefined('unknown source field')
            if callable(fm):
                funs.append(lambda rec, s=srcfld, fm=fm: fm(rec[s]))  # (field, callable)
            elif isinstance(fm, dict):
                funs.append(lambda rec, s=srcfld, fm=fm: fm[rec[s]] if rec[s] in fm else rec[s])  # (field, dict)
            else:
                raise Undefined('mapping %r' % (m,))
        else:
            raise Undefined('mapping %r' % (m,))
    out = []
    for row in rows:
        rec = RefRecord(row, hdr)
        out.append([f(rec) for f in funs])
    return _table([k for k, _ in mappings], out)


def rowmap(tables, args, kw):
    hdr, rows = _split(tables[0])
    a = list(args)
    f = a[0]
    header = a[1] if len(a) > 1 else kw['header']
    return _table(header, [tuple(f(RefRecord(row, hdr))) for row in rows])


# ---------------------------------------------------------------------------------------------
# accessors
# ---------------------------------------------------------------------------------------------

def values(tables, args, kw):
    """-> list of values: the cell (or `missing`) for one field, a tuple with per-cell `missing` for several."""
    hdr, rows = _split(tables[0])
    missing = kw.get('missing')
    if len(args) == 0:
        raise Undefined('no field')
    if len(args) == 1:
        field = args[0]
        if isinstance(field, (list, tuple)):
            if len(field) < 2:
                raise Undefined('tuple of fewer than two fields')
            idx = resolve(hdr, tuple(field))
            return [tuple(row[i] if i < len(row) else missing for i in idx) for row in rows]
        i = resolve(hdr, field)[0]
        return [row[i] if i < len(row) else missing for row in rows]
    idx = resolve(hdr, tuple(args))
    return [tuple(row[i] if i < len(row) else missing for i in idx) for row in rows]


def data(tables, args, kw):
    """-> list of row tuples, as they are."""
    hdr, rows = _split(tables[0])
    if args:
        rows = list(itertools.islice(rows, *args))
    return [tuple(r) for r in rows]


def _sliced(rows, args):
    return list(itertools.islice(rows, *args)) if args else rows


def dicts(tables, args, kw):
    """-> list of dicts of the pad/trimmed row."""
    hdr, rows = _split(tables[0])
    _distinct(hdr)
    missing = kw.get('missing')
    return [dict(zip([str(h) for h in hdr], pad(row, len(hdr), missing))) for row in _sliced(rows, args)]


def namedtuples(tables, args, kw):
    """-> list of (field names, cells) of the pad/trimmed row."""
    hdr, rows = _split(tables[0])
    _distinct(hdr)
    missing = kw.get('missing')
    flds = tuple(str(h) for h in hdr)
    return [(flds, pad(row, len(hdr), missing)) for row in _sliced(rows, args)]


def records(tables, args, kw):
    """-> list of (cells by index 0..w-1, cells by field name, cells by attribute) of the pad/trimmed row."""
    hdr, rows = _split(tables[0])
    _distinct(hdr)
    missing = kw.get('missing')
    out = []
    for row in _sliced(rows, args):
        p = pad(row, len(hdr), missing)
        out.append((p, p, p))
    return out


def columns(tables, args, kw):
    """-> dict field -> list of pad/trimmed cells in row order."""
    hdr, rows = _split(tables[0])
    _distinct(hdr)
    missing = args[0] if args else kw.get('missing')
    cols = {}
    for j, h in enumerate(hdr):
        cols[str(h)] = [row[j] if j < len(row) else missing for row in rows]
    return cols


def header(tables, args, kw):
    return tuple(tables[0][0])


def fieldnames(tables, args, kw):
    return tuple(str(h) for h in tables[0][0])


def listoflists(tables, args, kw):
    return [list(r) for r in tables[0]]


def listoftuples(tables, args, kw):
    return [tuple(r) for r in tables[0]]


def tupleoflists(tables, args, kw):
    return tuple(list(r) for r in tables[0])


def tupleoftuples(tables, args, kw):
    return tuple(tuple(r) for r in tables[0])


REF = {
    'cut': cut, 'cutout': cutout, 'movefield': movefield, 'cat': cat, 'stack': stack, 'annex': annex,
    'addfield': addfield, 'addfields': addfields, 'addcolumn': addcolumn, 'addrownumbers': addrownumbers,
    'addfieldusingcontext': addfieldusingcontext,
    'rename': rename, 'rename[]=': rename_setitem, 'setheader': setheader, 'extendheader': extendheader, 'pushheader': pushheader,
    'skip': skip, 'prefixheader': prefixheader, 'suffixheader': suffixheader, 'sortheader': sortheader,
    'convert': convert, 'convert[]=': convert_setitem, 'convertall': convertall, 'replace': replace,
    'replaceall': replaceall, 'update': update, 'convertnumbers': convertnumbers, 'format': format,
    'formatall': formatall, 'interpolate': interpolate, 'interpolateall': interpolateall, 'sub': sub,
    'filldown': filldown, 'fillright': fillright, 'fillleft': fillleft,
    'fieldmap': fieldmap, 'rowmap': rowmap,
    'values': values, 'data': data, 'dicts': dicts, 'namedtuples': namedtuples, 'records': records,
    'columns': columns, 'header': header, 'fieldnames': fieldnames,
    'listoflists': listoflists, 'listoftuples': listoftuples, 'tupleoflists': tupleoflists,
    'tupleoftuples': tupleoftuples,
}

# functions that emit exactly one output row per input data row, in input order (frame condition checked
# independently of the per-function reference); value = how many data rows the output must have
ONE_TO_ONE = {
    'cut': 'n', 'cutout': 'n', 'movefield': 'n', 'cat': 'sum', 'stack': 'sum', 'annex': 'max',
    'addfield': 'n', 'addfields': 'n', 'addrownumbers': 'n', 'addfieldusingcontext': 'n',
    'rename': 'n', 'rename[]=': 'n', 'setheader': 'n', 'extendheader': 'n', 'pushheader': 'n+1',
    'prefixheader': 'n', 'suffixheader': 'n', 'sortheader': 'n',
    'convert': 'n', 'convert[]=': 'n', 'convertall': 'n', 'replace': 'n', 'replaceall': 'n', 'update': 'n',
    'convertnumbers': 'n', 'format': 'n', 'formatall': 'n', 'interpolate': 'n', 'interpolateall': 'n',
    'sub': 'n', 'filldown': 'n', 'fillright': 'n', 'fillleft': 'n', 'fieldmap': 'n', 'rowmap': 'n',
}
