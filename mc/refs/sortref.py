"""Reference semantics for C05 (sort / mergesort / cat / issorted), written from petl's documentation.

Imports nothing from petl.  The ordering itself is mc.refmodel.cmp (the independent C04 order).
"""
from .. import refmodel as ref


def tf(row):
    """Type-faithful, container-agnostic rendering of a row: 1, 1.0 and True stay distinguishable,
    tuple/list/Record do not."""
    return tuple((c.__class__.__name__, c) for c in row)


def tfs(rows):
    return [tf(r) for r in rows]


def rectangular(hdr, rows):
    return all(len(r) == len(hdr) for r in rows)


def key_indices(hdr, key):
    """Field indices of `key` (None: every header field, in header order)."""
    if key is None:
        return list(range(len(hdr)))
    return ref.resolve(hdr, key)


def keys_of(hdr, rows, key):
    idx = key_indices(hdr, key)
    return [ref.keyof(r, idx) for r in rows]


def has_long_rows(hdr, rows):
    return any(len(r) > len(hdr) for r in rows)


def _lexkey_with_surplus(hdr, row):
    """Lexical key under the second reading: the header's fields (missing cells read as None) followed by
    the surplus cells of a long row."""
    n = len(hdr)
    return tuple(ref.cell(row, i) for i in range(n)) + tuple(row[n:])


def sort_expected(hdr, rows, key, reverse):
    """Acceptable output row sequences of sort(table, key, reverse).

    A missing cell reads as None (the statement's "None and missing key cells"), also in a lexical sort
    (key=None): the key of a SHORT row is the header-length tuple padded with None, so a short row and a row
    holding an explicit None there have equal keys and must keep input order.  One element — except for a
    lexical sort of a table with LONG rows: whether surplus cells take part in the lexical key is not
    documented, so the sequence with the surplus cells appended to the key is accepted as well."""
    rows = [tuple(r) for r in rows]
    first = ref.stable_sort(rows, key_indices(hdr, key), reverse)
    out = [first]
    if key is None and has_long_rows(hdr, rows):
        alt = sorted(rows, key=lambda r: ref.sortkey(_lexkey_with_surplus(hdr, r)), reverse=reverse)
        if tfs(alt) != tfs(first):
            out.append(alt)
    return out


def is_sorted_expected(hdr, rows, key, reverse, strict):
    """Acceptable answers of issorted (a set of booleans; two readings only for lexical + long rows)."""
    ans = {ref.is_sorted(keys_of(hdr, rows, key), reverse, strict)}
    if key is None and has_long_rows(hdr, rows):
        ans.add(ref.is_sorted([_lexkey_with_surplus(hdr, r) for r in rows], reverse, strict))
    return ans


def cat(parts, missing=None, header=None):
    """cat(*tables): output fields are the union of all fields in order of first appearance (or the
    fixed `header`); every row is re-laid out by field NAME, short rows / absent fields padded with
    `missing`, surplus cells dropped.  parts: [(hdr, rows), ...] -> (outhdr, rows)."""
    if header is None:
        outhdr = []
        for h, _ in parts:
            for f in h:
                if f not in outhdr:
                    outhdr.append(f)
    else:
        outhdr = list(header)
    out = []
    for h, rows in parts:
        h = list(h)
        for r in rows:
            new = []
            for f in outhdr:
                v = missing
                if f in h:
                    i = h.index(f)
                    if i < len(r):
                        v = r[i]
                new.append(v)
            out.append(tuple(new))
    return tuple(outhdr), out


def mergesort_expected(parts, key, reverse, missing=None, header=None):
    """mergesort(*tables, key) == sort(cat(*tables), key): (outhdr, rows)."""
    outhdr, rows = cat(parts, missing, header)
    return outhdr, ref.stable_sort(rows, key_indices(outhdr, key), reverse)


def presort(hdr, rows, key, reverse):
    """Put one input table into the order the caller promises with presorted=True."""
    return ref.stable_sort([tuple(r) for r in rows], key_indices(hdr, key), reverse)


def diagnose(hdr, rows, key, reverse, out):
    """Name what is wrong with an output sequence that is not an acceptable one (most basic first)."""
    a, b = sorted(map(repr, tfs(rows))), sorted(map(repr, tfs(out)))
    if a != b:
        if len(out) < len(rows):
            return 'rows lost'
        if len(out) > len(rows):
            return 'rows added'
        return 'row multiset changed'
    try:
        if not ref.is_sorted(keys_of(hdr, out, key), reverse):
            return 'not in key order'
    except Exception:
        return 'not in key order'
    return 'equal keys not in input order'
