"""Process environment: hash seed pinning, private scratch directories, gc freezing."""
import atexit
import gc
import os
import shutil
import sys
import tempfile

_SCRATCH = None


def ensure_hashseed():
    """Re-exec the interpreter with PYTHONHASHSEED=0 so set/dict order of str keys is reproducible."""
    if os.environ.get('PYTHONHASHSEED') != '0':
        env = dict(os.environ)
        env['PYTHONHASHSEED'] = '0'
        env.setdefault('PYTHONDONTWRITEBYTECODE', '1')
        os.execve(sys.executable, [sys.executable, '-B', '-m', 'mc'] + sys.argv[1:], env)


def scratch_root():
    """A private scratch directory for this process tree (removed at exit by the creating process)."""
    global _SCRATCH
    if _SCRATCH is None:
        base = os.environ.get('MC_SCRATCH_BASE')
        if not base:
            # tmpfs makes the many tiny chunk/spill files cheap; fall back to the normal temp dir
            base = '/dev/shm' if os.access('/dev/shm', os.W_OK | os.X_OK) else tempfile.gettempdir()
        _SCRATCH = tempfile.mkdtemp(prefix='mc-petl-', dir=base)
        owner = os.getpid()

        def _cleanup(path=_SCRATCH, owner=owner):
            if os.getpid() == owner:
                shutil.rmtree(path, ignore_errors=True)
        atexit.register(_cleanup)
        # everything petl creates without an explicit tempdir lands here too
        tempfile.tempdir = os.path.join(_SCRATCH, 'default-tmp')
        os.makedirs(tempfile.tempdir, exist_ok=True)
    return _SCRATCH


def subdir(name):
    """Create (or reuse) an empty sub-directory of the scratch root."""
    p = os.path.join(scratch_root(), name)
    os.makedirs(p, exist_ok=True)
    return p


def worker_dir():
    """A directory private to the calling (worker) process."""
    return subdir('w%d' % os.getpid())


def freeze():
    """Move everything allocated so far out of the collector's sight: gc.collect() becomes ~free."""
    gc.collect()
    gc.freeze()


def listing(path):
    try:
        return sorted(os.listdir(path))
    except FileNotFoundError:
        return []


_SCRUB = None


def excmsg(e, n=80):
    """Exception text as an observation: scratch paths and temp-file names (random per run) are scrubbed so that
    the same schedule yields the same observation on every replay."""
    global _SCRUB
    if _SCRUB is None:
        import re
        _SCRUB = re.compile(r"(/dev/shm|/tmp|/var/tmp)/[^\s'\"]*|\btmp[a-z0-9_]{6,}\b")
    return _SCRUB.sub('<scratch>', str(e))[:n]
